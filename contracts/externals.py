"""Assumed contracts (trusted) for the externals that the library faces call: open, json.dump, pickle.loads, std streams.
Each logs an effect event into the path's ghost log so that properties can speak about *what was called with what*."""
import z3
from pyvc.sorts import V, VNONE, Val, vref, vint, vbool, fresh, Str, Int, Bool, box
from pyvc.state import static_ref, clsid


def register(K):
    register_collections(K)
    register_streams(K)
    K.fieldsof("file", mode="str", path="val", closed="bool")

    @K.external("open")
    def _open(eng, st, args, kw, node):
        path = args[0]
        mode = args[1] if len(args) > 1 else kw.get("mode", eng.lit("r"))
        out = []
        ok = st.fork()
        r = ok.alloc("stream")
        f = vref(r, cls="stream")
        ok.H["stream.mode"] = z3.Store(ok.comp("stream.mode", Str), r, mode.t)
        ok.H["stream.path"] = z3.Store(ok.comp("stream.path", Val), r, box(eng.materialize(path, ok)))
        ok.H["stream.is_seekable"] = z3.Store(ok.comp("stream.is_seekable", Bool), r, z3.BoolVal(True))
        ok.log.append(("open", path, mode, f, getattr(node, "lineno", 0)))
        out.append((ok, f))
        bad = st.fork()
        bad.pc.append(fresh("open_fails", Bool))
        eng.raise_exc(bad, "OSError")
        out.append((bad, None))
        return out

    @K.external("int.from_bytes")
    def _from_bytes(eng, st, args, kw, node):
        """int.from_bytes(b, byteorder, signed=False) for a bytes value: a function of (bytes, order, signedness); non-negative when unsigned.
        (a non-bytes argument — an iterable of ints — raises TypeError / is outside this model)"""
        from pyvc.sorts import Bytes
        from pyvc.eval import Unsupported
        b = args[0]
        order = args[1] if len(args) > 1 else kw.get("byteorder", eng.lit("big"))
        signed = kw.get("signed", eng.lit(False))
        if b.k != "bytes" or order.k != "str" or signed.k != "bool":
            if b.k == "val":
                out = []
                for s2, isb in eng.branch(st, Val.is_Y(b.t), "int.from_bytes of a bytes value"):
                    if isb:
                        f = z3.Function("INT_FROM_BYTES", Bytes, Str, Bool, Int)
                        r = f(Val.y(b.t), order.t, signed.t)
                        s2.assume(z3.Implies(z3.Not(signed.t), r >= 0))
                        out.append((s2, vint(r)))
                    else:
                        out.append((eng.raise_exc(s2, "TypeError"), None))
                return out
            raise Unsupported(f"{eng.where(node)}: int.from_bytes of {b!r}")
        f = z3.Function("INT_FROM_BYTES", Bytes, Str, Bool, Int)
        r = f(b.t, order.t, signed.t)
        st.assume(z3.Implies(z3.Not(signed.t), r >= 0))
        return [(st, vint(r))]

    @K.external_method("file", "close")
    def _close(eng, st, recv, args, kw, node):
        st.log.append(("close", recv.cls, recv.t))
        return [(st, VNONE)]

    @K.external_method("file", "write")
    def _write(eng, st, recv, args, kw, node):
        st.log.append(("write", recv, args[0], getattr(node, "lineno", 0)))
        return [(st, vint(fresh("written")))]

    @K.external("json.dump")
    def _json_dump(eng, st, args, kw, node):
        st.log.append(("json.dump", args[0], args[1], getattr(node, "lineno", 0)))
        return [(st, VNONE)]

    @K.external("pickle.loads")
    def _pickle_loads(eng, st, args, kw, node):
        """the stock unpickler run on a byte string: UNPICKLE(bytes) (uninterpreted), may raise anything"""
        st.log.append(("unpickle", args[0], getattr(node, "lineno", 0)))
        out = []
        bad = st.fork()
        bad.pc.append(fresh("unpickle_raises", Bool))
        eng.raise_exc(bad, "Exception")
        out.append((bad, None))
        f = unpickle_fn()
        st.bump_alloc()
        a = args[0]
        if a.k == "bytes":
            out.append((st, V("val", f(a.t))))
        elif a.k == "val":
            # a buffer of unknown kind (bytes, bytearray, memoryview ...): the stock unpickler runs on its content
            from pyvc.sorts import Bytes
            content = z3.If(Val.is_Y(a.t), Val.y(a.t), z3.Function("BUFFER_CONTENT", Val, Bytes)(a.t))
            out.append((st, V("val", f(content))))
        else:
            from pyvc.eval import Unsupported
            raise Unsupported(f"{eng.where(node)}: pickle.loads of {a!r}")
        return out

    @K.spec("UNPICKLE")
    def _unpickle_spec(eng, st, b):
        return V("val", unpickle_fn()(b.t))

    @K.external("struct.pack")
    def _struct_pack(eng, st, args, kw, node):
        """struct.pack(fmt, x): bytes determined by (fmt, x); struct.error when x does not fit (precise integer codecs: contracts/encoders.py)"""
        PACK = z3.Function("STRUCT_PACK", Str, Val, __import__("pyvc.sorts", fromlist=["Bytes"]).Bytes)
        out = []
        bad = st.fork()
        bad.pc.append(fresh("struct_error", Bool))
        eng.raise_exc(bad, "struct.error")
        out.append((bad, None))
        out.append((st, V("bytes", PACK(args[0].t, box(eng.materialize(args[1], st))))))
        return out

    @K.external("sys.stderr.write")
    def _stderr(eng, st, args, kw, node):
        st.log.append(("stderr", args[0], getattr(node, "lineno", 0)))
        return [(st, VNONE)]

    @K.external("print")
    def _print(eng, st, args, kw, node):
        st.log.append(("stdout", args[0] if args else None, getattr(node, "lineno", 0)))
        return [(st, VNONE)]


_UNP = []


def unpickle_fn():
    from pyvc.sorts import Bytes
    if not _UNP:
        _UNP.append(z3.Function("UNPICKLE", Bytes, Val))
    return _UNP[0]


def register_collections(K):
    @K.external("collections.defaultdict")
    def _dd(eng, st, args, kw, node):
        r = st.alloc("defaultdict")
        return [(st, vref(r, cls="defaultdict"))]

    @K.external_method("defaultdict", "__getitem__")
    def _dd_get(eng, st, recv, args, kw, node):
        # write-only sink in fickling (results_by_analysis is never read): the looked-up list is an object owned by the defaultdict
        return [(st, vref(st.alloc("ddvalue"), cls="ddvalue"))]

    for meth in ("append", "extend", "__setitem__"):
        @K.external_method("ddvalue", meth)
        def _dd_sink(eng, st, recv, args, kw, node):
            return [(st, VNONE)]
    K.trusted.append(("collections.defaultdict", "contents not modelled: a lookup yields a list owned by the defaultdict (write-only sink in fickling)"))


def register_streams(K):
    """binary streams (file objects, sys.stdin.buffer, BytesIO): content and position are ghost fields.
    Assumed contract of the stream protocol: read(n) returns the next <= n bytes and advances; seek/tell move/report the position."""
    from pyvc.sorts import Bytes
    K.fieldsof("stream", content="bytes", position="int", written="bytes", is_seekable="bool", mode="str", path="val")
    for nm in ("sys.stdin", "sys.stdout", "sys.stderr", "sys.stdin.buffer", "sys.stdout.buffer"):
        pass

    def std(name):
        def f(eng, st, *a):
            r = static_ref("stream:" + name)
            st.assume(st.cls_of(z3.IntVal(r)) == clsid("stream"))        # the interpreter's standard streams are stream objects
            return vref(r, cls="stream")
        return f
    K.external_attr("sys", "stdin")(std("sys.stdin"))
    K.external_attr("sys", "stdout")(std("sys.stdout"))
    K.external_attr("sys", "stderr")(std("sys.stderr"))

    @K.external_attr("stream", "buffer")
    def _buffer(eng, st, v):
        r = z3.simplify(v.t)
        b = static_ref(f"stream:buffer-of-{r}")
        st.assume(st.cls_of(z3.IntVal(b)) == clsid("stream"))
        return vref(b, cls="stream")

    @K.external_attr("sys", "argv")
    def _argv(eng, st):
        return vref(st.new_list(fresh("sys_argv", __import__("pyvc.sorts", fromlist=["SeqV"]).SeqV)), cls="list", elem="str")

    @K.external_attr("sys", "version_info")
    def _vi(eng, st):
        return V("tuple", xs=[vint(3), vint(12)])

    @K.external_method("stream", "close")
    def _sclose(eng, st, recv, args, kw, node):
        st.log.append(("close", recv.cls, recv.t))
        return [(st, VNONE)]

    @K.external_method("stream", "isatty")
    def _isatty(eng, st, recv, args, kw, node):
        return [(st, vbool(fresh("isatty", Bool)))]

    @K.external_method("stream", "write")
    def _swrite(eng, st, recv, args, kw, node):
        r = eng.as_ref(recv, st)
        b = args[0]
        st.log.append(("write", recv, b, getattr(node, "lineno", 0)))
        if b.k == "bytes":
            st.write("stream.written", r, z3.Concat(st.read("stream.written", r, Bytes), b.t), Bytes)
        return [(st, vint(fresh("nwritten")))]

    @K.external_method("stream", "read")
    def _sread(eng, st, recv, args, kw, node):
        """read(n): the next min(n, remaining) bytes, advancing the position; read(): everything that remains"""
        r = eng.as_ref(recv, st)
        st.log.append(("effect", "read(arg)", "stream.read", getattr(node, "lineno", 0)))
        st.log.append(("read", recv, getattr(node, "lineno", 0)))
        content = st.read("stream.content", r, Bytes)
        pos = st.read("stream.position", r, Int)
        rem = z3.Length(content) - pos
        rem = z3.If(rem < 0, 0, rem)
        if args and args[0].k != "none":
            n = eng.as_int(args[0])
            take = z3.If(n < 0, rem, z3.If(n < rem, n, rem))
        else:
            take = rem
        data = z3.SubString(content, pos, take)
        st.write("stream.position", r, pos + take, Int)
        return [(st, V("bytes", data))]

    @K.external_method("stream", "seek")
    def _sseek(eng, st, recv, args, kw, node):
        r = eng.as_ref(recv, st)
        st.log.append(("effect", "seek(arg)", "stream.seek", getattr(node, "lineno", 0)))
        p = eng.as_int(args[0])
        st.write("stream.position", r, p, Int)
        return [(st, vint(p))]

    @K.external_method("stream", "tell")
    def _stell(eng, st, recv, args, kw, node):
        return [(st, vint(st.read("stream.position", eng.as_ref(recv, st), Int)))]

    @K.external_method("stream", "seekable")
    def _sseekable(eng, st, recv, args, kw, node):
        from pyvc.sorts import Bool as _B
        return [(st, vbool(st.read("stream.is_seekable", eng.as_ref(recv, st), _B)))]

    @K.external("io.BytesIO")
    def _bytesio(eng, st, args, kw, node):
        from pyvc.sorts import Bool as _B
        r = st.alloc("stream")
        data = args[0] if args else None
        if data is None:
            content = z3.Empty(Bytes)
        elif data.k == "bytes":
            content = data.t
        elif data.k == "val":
            content = Val.y(data.t)
        else:
            raise eng_unsupported(f"BytesIO of {data!r}")
        st.H["stream.content"] = z3.Store(st.comp("stream.content", Bytes), r, content)
        st.H["stream.position"] = z3.Store(st.comp("stream.position", Int), r, z3.IntVal(0))
        st.H["stream.is_seekable"] = z3.Store(st.comp("stream.is_seekable", _B), r, z3.BoolVal(True))
        st.log.append(("bytesio", vref(r, cls="stream"), data))
        return [(st, vref(r, cls="stream"))]


def eng_unsupported(msg):
    from pyvc.eval import Unsupported
    return Unsupported(msg)
