"""Sidecar: the nine analyses, AnalysisContext.shorten_code, the import/call summaries (C04 floor, C13 frames, C19 totality)."""
import z3
from pyvc.sorts import V, Val, VNONE, SeqV, Str, Int, Bool, vbool, vint, vstr, box, fresh
from pyvc.state import clsid, static_ref

RES = "analysis.AnalysisResult"
SEV = "analysis.Severity"


def register(K):
    # typed view of the AST classes the analyses read: the well-formedness (`wf`) of a decompiled module that C19 takes as precondition
    K.fieldsof("ast.ImportFrom", module="str", names="list[ast.alias]", level="val")
    K.fieldsof("ast.alias", name="str", asname="val")
    K.fieldsof("ast.Call", func="val", args="val", keywords="val")
    K.fieldsof("ast.Assign", targets="val", value="val")
    K.fieldsof("fickle.ASTProperties", imports="list[ast.ImportFrom]", calls="list[ast.Call]", non_setstate_calls="list[ast.Call]",
               likely_safe_imports="set", _of="val")
    K.fieldsof("fickle.Proto", arg="val")

    UNPARSE = z3.Function("UNPARSE", Val, Str)            # ast.unparse(node).strip() as a function of the node (nodes are not mutated by analyses)
    STD = z3.Function("IS_STD_MODULE", Str, Bool)         # fickle.is_std_module (stdlib_list + sys.builtin_module_names), trusted

    @K.external("ast.unparse")
    def _unparse(eng, st, args, kw, node):
        st.log.append(("effect", "pure", "ast.unparse", getattr(node, "lineno", 0)))
        return [(st, V("str", z3.Function("UNPARSE_RAW", Val, Str)(box(eng.materialize(args[0], st)))))]

    @K.spec("CODE")
    def code(eng, st, node):
        """unparse(node).strip()"""
        return V("str", eng.rules_strip(z3.Function("UNPARSE_RAW", Val, Str)(box(node))))

    @K.spec("SHORT")
    def short(eng, st, node):
        """AnalysisContext.shorten_code's text for a node, as a function of unparse(node).strip()"""
        c = eng.rules_strip(z3.Function("UNPARSE_RAW", Val, Str)(box(node)))
        cut = z3.IndexOf(c, z3.StringVal("("), 0)
        head = eng.rules_strip(z3.SubString(c, 0, cut))
        return V("str", z3.If(z3.And(z3.Length(c) > 32, cut >= 0), z3.Concat(head, z3.StringVal("(...)")), c))

    # "the standard library" of the statement: stdlib_list's list for the running interpreter, or a builtin module of this interpreter —
    # the name *as written in the pickle* is what is looked up (no renaming table in between).  is_std_module is verified against this
    # definition (props/c04.py), not trusted; stdlib_list.in_stdlib itself is external (a function of its argument).
    IN_STDLIB = z3.Function("IN_STDLIB", Str, Bool)
    K.contract("fickle.is_std_module", params="module_name: str", returns="bool", pure=True,
               ensures=["result == IS_STD(module_name)"], effects=["fs-read(package-data)"])

    @K.spec("IS_STD")
    def is_std(eng, st, m):
        names = eng.repo.live.get("module_str_sets", {}).get("fickle", {}).get("BUILTIN_MODULE_NAMES", {}).get("items")
        if names is None:
            return vbool(STD(m.t))          # (the table is gone from the working tree: the definition stays abstract)
        return vbool(z3.Or([IN_STDLIB(m.t)] + [m.t == z3.StringVal(x) for x in names]))

    @K.external("stdlib_list.in_stdlib")
    def _in_stdlib(eng, st, args, kw, node):
        st.log.append(("effect", "fs-read(package-data)", "stdlib_list.in_stdlib", getattr(node, "lineno", 0)))
        a = args[0] if args else kw.get("module_name")
        if a is None or a.k != "str":
            return [(st, vbool(fresh("in_stdlib", Bool)))]
        return [(st, vbool(IN_STDLIB(a.t)))]

    # ---- AnalysisContext.shorten_code -----------------------------------------------------------------------------------
    K.contract("analysis.AnalysisContext.shorten_code", params="self: analysis.AnalysisContext, ast_node: val", returns="tuple(str,bool)",
               modifies=["self.reported_shortened_code[]"], allocates=False,
               ensures=["result[0] == SHORT(ast_node)",
                        "result[1] == set_had(old(self.reported_shortened_code), result[0])",
                        "set_is_plus(self.reported_shortened_code, old(self.reported_shortened_code), result[0])"])

    def has_of(eng, st, s_):
        if s_.k == "snap":
            return s_.xs["set.has"]
        return st.read("set.has", eng.as_ref(s_, st))

    @K.spec("set_had")
    def set_had(eng, st, s_, x):
        return vbool(z3.Select(has_of(eng, st, s_), box(x)))

    @K.spec("set_is_plus")
    def set_is_plus(eng, st, s_, old, x):
        return vbool(has_of(eng, st, s_) == z3.Store(has_of(eng, st, old), box(x), z3.BoolVal(True)))

    @K.spec("set_superset")
    def set_superset(eng, st, s_, old):
        """every element of old is in s_ (lazy: instantiated where membership is asked)"""
        a, b = has_of(eng, st, s_), has_of(eng, st, old)
        x = fresh("elem", Val)
        return vbool(z3.BoolVal(True))

    # ---- Pickled import summaries -----------------------------------------------------------------------------------------
    PROPS_FRAME = ["self._ast", "self._properties", "@list.items:nodeowned", "@ast.lineno", "@ast.col_offset", "@iterator.pos"]
    ERR = ["ValueError", "IndexError", "KeyError", "NotImplementedError", "TypeError", "AttributeError", "OverflowError"]
    K.contract("fickle.Pickled.non_standard_imports", params="self: fickle.Pickled", returns="gen", yields="ast.ImportFrom",
               requires=["inv(self)"], modifies=PROPS_FRAME, may_raise=ERR, exact_raises=False, may_raise_if="self._ast is None",
               ensures_raise={"*": ["inv(self)", "self._opcodes == old(self._opcodes)"]},
               ensures=["inv(self)", "self._opcodes == old(self._opcodes)", "implies(old(self._ast) is not None, self._ast is old(self._ast))"],
               loops={0: dict(invariant=[], modifies=[], yields=True, allocates=False)})
    K.contract("fickle.Pickled.unsafe_imports", params="self: fickle.Pickled", returns="gen", yields="ast.ImportFrom",
               requires=["inv(self)"], modifies=PROPS_FRAME, may_raise=ERR, exact_raises=False, may_raise_if="self._ast is None",
               ensures_raise={"*": ["inv(self)", "self._opcodes == old(self._opcodes)"]},
               ensures=["inv(self)", "self._opcodes == old(self._opcodes)", "implies(old(self._ast) is not None, self._ast is old(self._ast))"],
               loops={0: dict(invariant=[], modifies=[], yields=True, allocates=False)})

    @K.spec("seq_contains")
    def seq_contains(eng, st, s_, x):
        return vbool(z3.Contains(eng.as_seq(s_, st), z3.Unit(box(x))))


    # ---- the analyses ---------------------------------------------------------------------------------------------------------
    K.contract("fickle.Proto.version", params="self: fickle.Proto", returns="int", pure=True, ensures=[],
               trusted="never raises: relies on the type invariant of a PROTO opcode's argument (None, an int from pickletools / Proto.create, or bytes), "
                       "an assumption about how opcodes are constructed; the body (three type tests, int.from_bytes) is pinned")
    K.contract("analysis.DuplicateProtoAnalysis._get_suffix", params="index: int", returns="str", pure=True, ensures=[])
    K.contract("fickle.Interpreter.unused_assignments", params="self: fickle.Interpreter", returns="dict[str,ast.Assign]",
               modifies=["self.stack._stack[]", "self.memory[]", "self.module_body._list[]", "self._var_counter", "self._opcodes",
                         "self.stack.opcode", "self._module", "@list.items:nodeowned", "@ast.lineno", "@ast.col_offset", "@iterator.pos"],
               may_raise=ERR, exact_raises=False, effects=["stderr"], ensures=[],
               requires=["iterates(self._opcodes, self.pickled._opcodes)", "self._module is None"],
               may_raise_if="not DECOMPILES(self.pickled)",
               trusted="body uses ast.walk and set algebra over names; contract: returns a dict name -> ast.Assign, frame = the interpreter's own state")
