"""Sidecar: ml.FicklingMLUnpickler and the closures installed by activate_safe_ml_environment (C07, C11)."""
import z3
from pyvc.sorts import V, Val, VNONE, vbool, vint, vref, Int, Str, Bool, box, fresh
from pyvc.state import static_ref


def register(K):
    K.fieldsof("module:ml", ML_ALLOWLIST="dict[str,dict[str,str]]")
    K.fieldsof("ml.FicklingMLUnpickler", allowlist="dict[str,dict[str,str]]", _file="val")
    K.fieldsof("ml.MLAllowlist", allowlist="dict[str,dict[str,str]]")

    def allow_has_term(eng, st, d, module, name, heap=None):
        """two-level lookup: module in d and name in d[module]"""
        h = heap or st
        r = eng.as_ref(d, st)
        mb = box(module)
        inner = Val.r(z3.Select(h.read("dict.map", r), mb))
        return z3.And(z3.Select(h.read("dict.has", r), mb), z3.Select(h.read("dict.has", inner), box(name)))

    @K.spec("allow_has")
    def allow_has(eng, st, d, module, name):
        return vbool(allow_has_term(eng, st, d, module, name))

    @K.external("super:_pickle.Unpickler.__init__")
    def _unp_init(eng, st, args, kw, node):
        recv = args[0]
        if len(args) > 1:
            st.write("ml.FicklingMLUnpickler._file", recv.t, box(eng.materialize(args[1], st)), Val)
        return [(st, VNONE)]

    @K.external("super:_pickle.Unpickler.find_class")
    def _unp_find_class(eng, st, args, kw, node):
        """the stock resolution: imports the module and gets the attribute — the effect the allowlist guards"""
        st.log.append(("resolve", args[1], args[2], getattr(node, "lineno", 0)))
        st.log.append(("effect", "import+resolve", "pickle.Unpickler.find_class", getattr(node, "lineno", 0)))
        st.bump_alloc()
        return [(st, V("val", fresh("resolved", Val)))]

    @K.external_method("ml.FicklingMLUnpickler", "load")
    def _unp_load(eng, st, recv, args, kw, node):
        """pickle.Unpickler.load (C code): runs the VM; every global goes through self.find_class (assumed, A-entry)"""
        st.log.append(("ml-unpickle", recv, getattr(node, "lineno", 0)))
        out = []
        bad = st.fork()
        bad.pc.append(fresh("unpickle_raises", Bool))
        eng.raise_exc(bad, "Exception")
        out.append((bad, None))
        st.bump_alloc()
        out.append((st, V("val", fresh("ml_loaded", Val))))
        return out

    K.contract("ml.FicklingMLUnpickler.find_class", params="self: ml.FicklingMLUnpickler, module: str, name: str", returns="val",
               raises={"exception.UnsafeFileError": "not allow_has(self.allowlist, module, name)"},
               logs=[("resolve", ["module", "name"])], ensures=[])
    K.contract("ml.FicklingMLUnpickler.__init__", params="self: ml.FicklingMLUnpickler, *args: val, also_allow: val = None, **kwargs: val",
               modifies=["self.allowlist", "self._file"],
               may_raise=["ValueError", "TypeError", "AttributeError"], exact_raises=False,
               logs=[("ml-unpickler-created", ["self", "also_allow"])],
               loops={0: dict(invariant=["vals_fresh(self.allowlist)", "allocated_by_call(self.allowlist)"],
                              modifies=["@dict.keys:fresh", "@dict.map:fresh", "@dict.has:fresh"])},
               ensures=["fresh_since_entry(self.allowlist)", "vals_fresh(self.allowlist)"])

    @K.spec("allocated_by_call")
    def allocated_by_call(eng, st, x):
        """the object did not exist when the verified function was entered"""
        from pyvc.state import ALLOC0
        return vbool(eng.as_ref(x, st) >= ALLOC0)

    @K.spec("vals_fresh")
    def vals_fresh(eng, st, d):
        """every per-module table of the allowlist d is an object allocated since the function was entered (not one of ML_ALLOWLIST's)"""
        r = eng.as_ref(d, st)
        return vbool(eng.fresh_values_pred()(st.read("dict.map", r)))

    K.contract("ml.MLAllowlist.__init__", params="self: ml.MLAllowlist", modifies=["self.allowlist"], ensures=[])

    def closure_env(eng, st):
        """the environment of the safe-ML closures as activate_safe_ml_environment builds it (its postcondition is_ml_load / is_ml_loads,
        contracts/hooks.py): the activation's also_allow, and the sibling nested functions the closure calls (their code is the nested def of
        that name in the working tree)"""
        import ast as _ast
        from pyvc.state import static_ref
        from pyvc.sorts import Int
        c = st.env["__closure__"]
        outer = "hook.activate_safe_ml_environment"
        nested = {q.rsplit(".", 1)[-1]: fn for q, fn in eng.repo.qual.items() if q.startswith(outer + ".<locals>.") and q.count(".<locals>.") == 1}

        def names(fn):
            return {n.id for n in _ast.walk(fn) if isinstance(n, _ast.Name) and isinstance(n.ctx, _ast.Load)}
        which = (getattr(eng, "cur_fn", "") or "").rsplit(".", 1)[-1]
        holder = c.t                                  # the closure object whose cell holds the activation's also_allow
        if which in nested and "also_allow" not in names(nested[which]):
            for g in sorted(names(nested[which]) & set(nested)):
                if "also_allow" in names(nested[g]):
                    holder = Val.r(st.read(f"function.cell.{g}", c.t, Val))
                    break
        env = {"also_allow": V("val", st.read("function.cell.also_allow", holder, Val))}
        for q, fn in eng.repo.qual.items():
            if q.startswith(outer + ".<locals>.") and q.count(".<locals>.") == 1:
                g = q.rsplit(".", 1)[-1]
                cell = st.read(f"function.cell.{g}", c.t, Val)
                st.assume(z3.Implies(Val.is_R(cell), st.read("function.code", Val.r(cell), Int) == static_ref("code:" + q)))
                st.assume(Val.is_R(cell))
                env.setdefault(g, V("val", cell))
        return env
    K.contract("hook.activate_safe_ml_environment.<locals>.new_load", params="__closure__: function, file: val, *args: val, **kwargs: val",
               returns="val", may_raise=["Exception", "exception.UnsafeFileError"], closure_env=closure_env, ensures=[])
    K.contract("hook.activate_safe_ml_environment.<locals>.new_loads", params="__closure__: function, data: val, *args: val, **kwargs: val",
               returns="val", may_raise=["Exception", "exception.UnsafeFileError"], closure_env=closure_env, ensures=[])
