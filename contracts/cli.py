"""Sidecar: fickling.cli.main — argparse model (fields of the parsed namespace are read off the add_argument calls of the working tree),
standard streams, and the contracts of what main calls (C10 CLI face, C18)."""
import ast
import z3
from pyvc.sorts import V, Val, VNONE, vbool, vint, vref, vstr, box, fresh, Int, Str, Bool
from pyvc.state import static_ref


def namespace_fields(repo):
    """dest -> (type, default) from the parser.add_argument(...) / group.add_argument(...) calls of cli.main; and the exclusive group's dests"""
    mod, fn = repo.function("cli.main")
    fields, exclusive = {}, []
    groups = set()
    for n in ast.walk(fn):
        if isinstance(n, ast.Assign) and isinstance(n.value, ast.Call) and isinstance(n.value.func, ast.Attribute) \
                and n.value.func.attr == "add_mutually_exclusive_group" and isinstance(n.targets[0], ast.Name):
            groups.add(n.targets[0].id)
    for n in ast.walk(fn):
        if not (isinstance(n, ast.Call) and isinstance(n.func, ast.Attribute) and n.func.attr == "add_argument"):
            continue
        names = [a.value for a in n.args if isinstance(a, ast.Constant) and isinstance(a.value, str)]
        if not names:
            continue
        longs = [x for x in names if x.startswith("--")]
        dest = (longs[0][2:] if longs else names[0].lstrip("-")).replace("-", "_")
        kw = {k.arg: k.value for k in n.keywords}
        if "dest" in kw and isinstance(kw["dest"], ast.Constant):
            dest = kw["dest"].value
        action = kw["action"].value if "action" in kw and isinstance(kw["action"], ast.Constant) else None
        ty = ast.unparse(kw["type"]) if "type" in kw else "str"
        default = kw.get("default")
        if action == "store_true":
            fields[dest] = ("bool", False)
        elif action is None:
            dflt = default.value if isinstance(default, ast.Constant) else None
            fields[dest] = (ty, dflt)
        else:
            fields[dest] = ("val", None)
        if isinstance(n.func.value, ast.Name) and n.func.value.id in groups:
            exclusive.append(dest)
    return fields, exclusive


def register(K):
    K.fieldsof("argparse.ArgumentParser", _dummy="val")
    K.fieldsof("argparse.Group", _dummy="val")

    @K.external("argparse.ArgumentParser")
    def _parser(eng, st, args, kw, node):
        return [(st, vref(st.alloc("argparse.ArgumentParser"), cls="argparse.ArgumentParser"))]

    for cls in ("argparse.ArgumentParser", "argparse.Group"):
        @K.external_method(cls, "add_argument")
        def _add(eng, st, recv, args, kw, node):
            return [(st, VNONE)]

    @K.external_method("argparse.ArgumentParser", "add_mutually_exclusive_group")
    def _grp(eng, st, recv, args, kw, node):
        return [(st, vref(st.alloc("argparse.Group"), cls="argparse.Group"))]

    @K.external_method("argparse.ArgumentParser", "parse_args")
    def _parse(eng, st, recv, args, kw, node):
        """a namespace whose attributes are the declared destinations at their declared types (or SystemExit for a rejected command line);
        options of the mutually exclusive group are not given together"""
        fields, exclusive = namespace_fields(eng.repo)
        decl = {}
        for dest, (ty, dflt) in fields.items():
            decl[dest] = {"str": "val", "int": "int", "bool": "bool"}.get(ty, "val")
        eng.fields["argparse.Namespace"] = decl
        bad = st.fork()
        bad.pc.append(fresh("argparse_rejects", Bool))
        eng.raise_exc(bad, "SystemExit")
        r = st.alloc("argparse.Namespace")
        ns = vref(r, cls="argparse.Namespace")
        given = []
        for dest in exclusive:
            ty, dflt = fields[dest]
            t = st.read(f"argparse.Namespace.{dest}", r, z3.BoolSort() if ty == "bool" else Val)
            given.append(t if ty == "bool" else z3.Not(Val.is_N(t)))
        for i in range(len(given)):
            for j in range(i + 1, len(given)):
                st.assume(z3.Not(z3.And(given[i], given[j])))
        for dest, (ty, dflt) in fields.items():
            if ty == "str":
                t = st.read(f"argparse.Namespace.{dest}", r, Val)
                st.assume(z3.Or(Val.is_S(t), Val.is_N(t)) if dflt is None else Val.is_S(t))
        st.log.append(("parse_args", ns, getattr(node, "lineno", 0)))
        return [(bad, None), (st, ns)]

    @K.external_attr("sys", "argv")
    def _argv(eng, st, *a):
        return V("val", fresh("sys_argv", Val))

    register_injection(K)

    @K.external_attr("cli", "__version__")
    def _ver(eng, st, *a):
        return V("str", fresh("version", Str))


def register_injection(K):
    """what cli.main needs of the injection helper (its structure is C08's subject): it edits only the pickle it is called on"""
    ERR = ["ValueError", "IndexError", "KeyError", "NotImplementedError", "TypeError", "AttributeError", "OverflowError", "struct.error"]
    K.contract("fickle.Pickled.insert_python",
               params="self: fickle.Pickled, *args: val, module: val = 'builtins', attr: val = 'eval', run_first: val = True, "
                      "use_output_as_unpickle_result: val = False",
               returns="int", requires=["inv(self)"], may_raise=ERR, exact_raises=False,
               modifies=["self._opcodes[]", "self._ast", "self._properties", "@list.items:nodeowned", "@ast.lineno", "@ast.col_offset", "@iterator.pos"],
               ensures=["inv(self)"], ensures_raise={"*": ["inv(self)"]},
               trusted="abstract here (C18 / C10 need only its frame: it edits the pickle it is called on and objects it allocates); its structure is C08")
